package sx

import (
	"go/token"
	"go/types"

	"golang.org/x/tools/go/ssa"
)

// Edge identifies a CFG edge: from block From to its Succs[Idx].
type Edge struct {
	From *ssa.BasicBlock
	Idx  int
}

func (e Edge) To() *ssa.BasicBlock { return e.From.Succs[e.Idx] }

// ---- select ----

// Arm describes one arm of a select statement as lowered by go/ssa.
type Arm struct {
	Index   int              // index into Select.States; -1 for default
	State   *ssa.SelectState // nil for default
	Edge    Edge             // the CFG edge taken when this arm is chosen
	Default bool
}

// SelectArms recovers, for each arm of sel, the CFG edge taken when the arm
// fires. go/ssa lowers a select to `idx = extract sel #0` followed by a chain
// of `if idx == k goto body_k else next`; the final else is the default arm
// (non-blocking select) or an unreachable panic (blocking select).
// ok is false if the lowering is not of that shape.
func SelectArms(sel *ssa.Select) (arms []Arm, ok bool) {
	var idx *ssa.Extract
	for _, r := range *sel.Referrers() {
		if e, isE := r.(*ssa.Extract); isE && e.Index == 0 {
			idx = e
		}
	}
	if len(sel.States) == 0 {
		return nil, false
	}
	if idx == nil {
		// `select { case <-c: }` with one state and blocking: no index test is needed
		return nil, false
	}
	found := map[int]bool{}
	var lastIf *ssa.If
	for _, r := range *idx.Referrers() {
		b, isB := r.(*ssa.BinOp)
		if !isB || b.Op != token.EQL {
			continue
		}
		k, isC := ConstInt(b.Y)
		if !isC {
			return nil, false
		}
		for _, rr := range *b.Referrers() {
			if iff, isIf := rr.(*ssa.If); isIf {
				arms = append(arms, Arm{Index: int(k), State: sel.States[k], Edge: Edge{iff.Block(), 0}})
				found[int(k)] = true
				if int(k) == len(sel.States)-1 {
					lastIf = iff
				}
			}
		}
	}
	if len(found) != len(sel.States) {
		return nil, false
	}
	if !sel.Blocking {
		if lastIf == nil {
			return nil, false
		}
		arms = append(arms, Arm{Index: -1, Default: true, Edge: Edge{lastIf.Block(), 1}})
	}
	return arms, true
}

// ---- reachability with cuts ----

// Cut describes parts of the CFG to remove before a reachability query.
type Cut struct {
	Edges  map[Edge]bool
	Blocks map[*ssa.BasicBlock]bool
	// Instrs: reaching one of these instructions stops the walk (the rest of
	// its block and the block's successors are not entered through it).
	Instrs map[ssa.Instruction]bool
}

// ReachInstr reports whether target can be reached from the program point
// just after `from` (or from function entry when from is nil) without
// crossing the cut. Synthetic unreachable panic blocks are never entered.
func ReachInstr(fn *ssa.Function, from ssa.Instruction, target ssa.Instruction, cut Cut) bool {
	found := false
	WalkFrom(fn, from, cut, func(in ssa.Instruction) bool {
		if in == target {
			found = true
			return false
		}
		return true
	})
	return found
}

// WalkFrom visits every instruction reachable from just after `from` (entry if
// nil), honouring the cut. visit returns false to stop the whole walk.
func WalkFrom(fn *ssa.Function, from ssa.Instruction, cut Cut, visit func(ssa.Instruction) bool) {
	type pt struct {
		b *ssa.BasicBlock
		i int
	}
	var start pt
	if from == nil {
		if len(fn.Blocks) == 0 {
			return
		}
		start = pt{fn.Blocks[0], 0}
	} else {
		b := from.Block()
		for i, in := range b.Instrs {
			if in == from {
				start = pt{b, i + 1}
			}
		}
	}
	seenBlock := map[*ssa.BasicBlock]bool{}
	work := []pt{start}
	for len(work) > 0 {
		p := work[len(work)-1]
		work = work[:len(work)-1]
		stopped := false
		for i := p.i; i < len(p.b.Instrs); i++ {
			in := p.b.Instrs[i]
			if cut.Instrs[in] {
				stopped = true
				break
			}
			if !visit(in) {
				return
			}
		}
		if stopped {
			continue
		}
		for si, s := range p.b.Succs {
			if cut.Edges[Edge{p.b, si}] || cut.Blocks[s] || IsUnreachablePanic(s) || seenBlock[s] {
				continue
			}
			seenBlock[s] = true
			work = append(work, pt{s, 0})
		}
	}
}

// MustPass reports whether every path from just after `from` (entry if nil)
// to target crosses the cut.
func MustPass(fn *ssa.Function, from, target ssa.Instruction, cut Cut) bool {
	return !ReachInstr(fn, from, target, cut)
}

// Returns lists the return instructions of fn.
func Returns(fn *ssa.Function) []*ssa.Return {
	var out []*ssa.Return
	for _, b := range fn.Blocks {
		if fn.Recover != nil && b == fn.Recover {
			continue
		}
		if len(b.Instrs) > 0 {
			if r, ok := b.Instrs[len(b.Instrs)-1].(*ssa.Return); ok {
				out = append(out, r)
			}
		}
	}
	return out
}

// ---- path counting ----

// Range is a saturating (min,max) count; Sat is "2 or more".
type Range struct{ Min, Max int }

const Sat = 3

func (r Range) Add(o Range) Range {
	return Range{min(r.Min+o.Min, Sat), min(r.Max+o.Max, Sat)}
}
func (r Range) Join(o Range) Range { return Range{min(r.Min, o.Min), max(r.Max, o.Max)} }
func (r Range) Is(n int) bool      { return r.Min == n && r.Max == n }

// Weights assigns event counts to instructions and CFG edges.
type Weights struct {
	Instr func(ssa.Instruction) Range
	Edge  func(Edge) Range
}

// CountResult holds, for each instruction, the range of event counts over all
// paths from the start point to just BEFORE that instruction.
type CountResult struct {
	before map[ssa.Instruction]Range
	// BackEdges holds the count at each cut back edge (per-iteration analysis).
	BackEdges map[Edge]Range
	Reached   map[*ssa.BasicBlock]bool
}

func (c *CountResult) Before(in ssa.Instruction) (Range, bool) {
	r, ok := c.before[in]
	return r, ok
}

// Count runs the forward (min,max) dataflow from the start of block `start`.
// Edges in cutEdges are not followed; the accumulated count at each is
// recorded in BackEdges. Unreachable select panics are ignored.
func Count(fn *ssa.Function, start *ssa.BasicBlock, w Weights, cutEdges map[Edge]bool) *CountResult {
	res := &CountResult{before: map[ssa.Instruction]Range{}, BackEdges: map[Edge]Range{}, Reached: map[*ssa.BasicBlock]bool{}}
	in := map[*ssa.BasicBlock]Range{}
	has := map[*ssa.BasicBlock]bool{}
	in[start] = Range{0, 0}
	has[start] = true
	work := []*ssa.BasicBlock{start}
	for iter := 0; len(work) > 0 && iter < 100000; iter++ {
		b := work[0]
		work = work[1:]
		res.Reached[b] = true
		cur := in[b]
		for _, ins := range b.Instrs {
			res.before[ins] = cur
			if w.Instr != nil {
				cur = cur.Add(w.Instr(ins))
			}
		}
		for si, s := range b.Succs {
			e := Edge{b, si}
			out := cur
			if w.Edge != nil {
				out = out.Add(w.Edge(e))
			}
			if cutEdges[e] {
				if old, ok := res.BackEdges[e]; ok {
					out = out.Join(old)
				}
				res.BackEdges[e] = out
				continue
			}
			if IsUnreachablePanic(s) {
				continue
			}
			if !has[s] {
				has[s] = true
				in[s] = out
				work = append(work, s)
			} else {
				j := in[s].Join(out)
				if j != in[s] {
					in[s] = j
					work = append(work, s)
				}
			}
		}
	}
	return res
}

// BackEdgesTo returns the CFG edges into header whose source is dominated by header.
func BackEdgesTo(header *ssa.BasicBlock) map[Edge]bool {
	out := map[Edge]bool{}
	for _, p := range header.Preds {
		if header.Dominates(p) {
			for si, s := range p.Succs {
				if s == header {
					out[Edge{p, si}] = true
				}
			}
		}
	}
	return out
}

// LoopHeaders returns blocks that are the target of a back edge.
func LoopHeaders(fn *ssa.Function) []*ssa.BasicBlock {
	var out []*ssa.BasicBlock
	for _, b := range fn.Blocks {
		if len(BackEdgesTo(b)) > 0 {
			out = append(out, b)
		}
	}
	return out
}

// ---- must-hold lockset ----

// LockKey is "<access path of the mutex>:<W|R>".
type Lockset map[string]bool

func (l Lockset) clone() Lockset {
	n := Lockset{}
	for k := range l {
		n[k] = true
	}
	return n
}
func (l Lockset) meet(o Lockset) Lockset {
	n := Lockset{}
	for k := range l {
		if o[k] {
			n[k] = true
		}
	}
	return n
}
func (l Lockset) eq(o Lockset) bool {
	if len(l) != len(o) {
		return false
	}
	for k := range l {
		if !o[k] {
			return false
		}
	}
	return true
}

// Locksets computes the must-held lockset before every instruction of fn.
// Lock/RLock add, Unlock/RUnlock remove; a deferred unlock keeps the lock
// until the function exits. Mutexes are identified by access path.
func Locksets(fn *ssa.Function) map[ssa.Instruction]Lockset {
	res := map[ssa.Instruction]Lockset{}
	if len(fn.Blocks) == 0 {
		return res
	}
	in := map[*ssa.BasicBlock]Lockset{fn.Blocks[0]: {}}
	work := []*ssa.BasicBlock{fn.Blocks[0]}
	for iter := 0; len(work) > 0 && iter < 100000; iter++ {
		b := work[0]
		work = work[1:]
		cur := in[b].clone()
		for _, ins := range b.Instrs {
			res[ins] = cur.clone()
			call, ok := ins.(*ssa.Call)
			if !ok {
				continue
			}
			name := CalleeName(call)
			args := Args(call)
			if len(args) == 0 {
				continue
			}
			key := mutexKey(args[0])
			switch name {
			case "(*sync.Mutex).Lock", "(*sync.RWMutex).Lock":
				cur[key+":W"] = true
			case "(*sync.RWMutex).RLock":
				cur[key+":R"] = true
			case "(*sync.Mutex).Unlock", "(*sync.RWMutex).Unlock":
				delete(cur, key+":W")
			case "(*sync.RWMutex).RUnlock":
				delete(cur, key+":R")
			}
		}
		for _, s := range b.Succs {
			if old, ok := in[s]; !ok {
				in[s] = cur.clone()
				work = append(work, s)
			} else {
				m := old.meet(cur)
				if !m.eq(old) {
					in[s] = m
					work = append(work, s)
				}
			}
		}
	}
	return res
}

// mutexKey: the receiver of Lock is either the mutex pointer loaded from a
// field (h.outMu) or the address of a mutex field (&f.mutex); both render as
// the field's access path.
func mutexKey(v ssa.Value) string {
	v = Unspill(v)
	switch x := v.(type) {
	case *ssa.FieldAddr, *ssa.IndexAddr, *ssa.Alloc, *ssa.Global:
		return AddrPath(x)
	}
	return ValPath(v)
}

// MutexKey is exported for rules that need to name the expected lock.
func MutexKey(v ssa.Value) string { return mutexKey(v) }

// NilEdges returns the CFG edges on which v (an error / pointer / interface
// value) is known to be nil resp. non-nil, from `v == nil` / `v != nil` tests.
// Values merged through phis are followed one level.
func NilEdges(v ssa.Value) (isNil, nonNil map[Edge]bool) {
	isNil, nonNil = map[Edge]bool{}, map[Edge]bool{}
	vals := []ssa.Value{v}
	// a call returning (…, error): the tests are on the extracted error
	if tup, ok := v.Type().(*types.Tuple); ok && tup.Len() > 1 && v.Referrers() != nil {
		vals = nil
		for _, r := range *v.Referrers() {
			if e, ok := r.(*ssa.Extract); ok && e.Index == tup.Len()-1 {
				a, b := NilEdges(e)
				for k := range a {
					isNil[k] = true
				}
				for k := range b {
					nonNil[k] = true
				}
			}
		}
		return
	}
	if v.Referrers() != nil {
		for _, r := range *v.Referrers() {
			if ph, ok := r.(*ssa.Phi); ok {
				vals = append(vals, ph)
			}
			if st, ok := r.(*ssa.Store); ok && st.Val == v {
				// spilled into a cell: loads of the cell
				if a, ok := st.Addr.(*ssa.Alloc); ok {
					for _, rr := range *a.Referrers() {
						if u, ok := rr.(*ssa.UnOp); ok && u.Op == token.MUL {
							vals = append(vals, u)
						}
					}
				}
			}
		}
	}
	for _, val := range vals {
		if val.Referrers() == nil {
			continue
		}
		for _, r := range *val.Referrers() {
			b, ok := r.(*ssa.BinOp)
			if !ok || (b.Op != token.EQL && b.Op != token.NEQ) {
				continue
			}
			other := b.Y
			if b.Y == val {
				other = b.X
			}
			if !IsNilConst(other) {
				continue
			}
			for _, rr := range *b.Referrers() {
				iff, ok := rr.(*ssa.If)
				if !ok {
					continue
				}
				t, f := Edge{iff.Block(), 0}, Edge{iff.Block(), 1}
				if b.Op == token.EQL {
					isNil[t], nonNil[f] = true, true
				} else {
					nonNil[t], isNil[f] = true, true
				}
			}
		}
	}
	return
}

// LoopBody returns the natural loop of header h: h plus every block that can
// reach the source of one of h's back edges without passing through h.
func LoopBody(h *ssa.BasicBlock) map[*ssa.BasicBlock]bool {
	body := map[*ssa.BasicBlock]bool{h: true}
	var stack []*ssa.BasicBlock
	for e := range BackEdgesTo(h) {
		if !body[e.From] {
			body[e.From] = true
			stack = append(stack, e.From)
		}
	}
	for len(stack) > 0 {
		b := stack[len(stack)-1]
		stack = stack[:len(stack)-1]
		for _, p := range b.Preds {
			if !body[p] {
				body[p] = true
				stack = append(stack, p)
			}
		}
	}
	return body
}

// InnermostLoop returns the header of the smallest natural loop containing b (nil if none).
func InnermostLoop(fn *ssa.Function, b *ssa.BasicBlock) *ssa.BasicBlock {
	var best *ssa.BasicBlock
	bestSize := 1 << 30
	for _, h := range LoopHeaders(fn) {
		body := LoopBody(h)
		if body[b] && len(body) < bestSize {
			best, bestSize = h, len(body)
		}
	}
	return best
}

// LoopTrip recognises a counted loop at header h — `for i := 0; i < B; i++`
// (phi [0, phi+1] < B) and go/ssa's lowering of `for i := range s`
// (phi [-1, next], next = phi+1, next < B) — and returns the bound B: the body
// runs exactly max(B,0) times unless it leaves the loop early.
func LoopTrip(h *ssa.BasicBlock) (ssa.Value, bool) {
	if len(h.Instrs) == 0 {
		return nil, false
	}
	iff, ok := h.Instrs[len(h.Instrs)-1].(*ssa.If)
	if !ok {
		// go/ssa's lowering of `for i := range n`: the test is rotated to the end of the body — the header carries
		// phi [0, next], the latch computes next = phi+1 and branches back on `next < B`, and the loop is entered
		// behind `0 < B`
		for _, in := range h.Instrs {
			ph, isPhi := in.(*ssa.Phi)
			if !isPhi {
				break
			}
			for k, e := range ph.Edges {
				nx, isB := e.(*ssa.BinOp)
				if !isB || nx.Op != token.ADD || nx.X != ssa.Value(ph) {
					continue
				}
				if c, isC := ConstInt(nx.Y); !isC || c != 1 {
					continue
				}
				latch := h.Preds[k]
				li, isIf := latch.Instrs[len(latch.Instrs)-1].(*ssa.If)
				if !isIf || latch.Succs[0] != h {
					continue
				}
				cmp, isCmp := li.Cond.(*ssa.BinOp)
				if !isCmp || cmp.Op != token.LSS || cmp.X != ssa.Value(nx) {
					continue
				}
				startsAtZero := false
				for k2, e2 := range ph.Edges {
					if k2 == k {
						continue
					}
					if c, isC := ConstInt(e2); isC && c == 0 {
						startsAtZero = true
					}
				}
				if startsAtZero {
					return cmp.Y, true
				}
			}
		}
		return nil, false
	}
	be, ok := iff.Cond.(*ssa.BinOp)
	if !ok || be.Op != token.LSS {
		return nil, false
	}
	isStep := func(v ssa.Value, ph *ssa.Phi) bool {
		b, ok := v.(*ssa.BinOp)
		if !ok || b.Op != token.ADD || b.X != ssa.Value(ph) {
			return false
		}
		k, isC := ConstInt(b.Y)
		return isC && k == 1
	}
	counted := func(ph *ssa.Phi, start int64) bool {
		if ph.Block() != h || len(ph.Edges) != 2 {
			return false
		}
		init, step := false, false
		for _, e := range ph.Edges {
			if k, isC := ConstInt(e); isC && k == start {
				init = true
			} else if isStep(e, ph) {
				step = true
			}
		}
		return init && step
	}
	if ph, ok := be.X.(*ssa.Phi); ok && counted(ph, 0) {
		return be.Y, true
	}
	if nx, ok := be.X.(*ssa.BinOp); ok {
		if ph, ok := nx.X.(*ssa.Phi); ok && isStep(nx, ph) && counted(ph, -1) {
			return be.Y, true
		}
		// `for i := range n` whose body is one block: the block is header and latch at once — phi [0, next],
		// next = phi+1, back on `next < B` — and it is entered behind the guard `0 < B`
		if ph, ok := nx.X.(*ssa.Phi); ok && isStep(nx, ph) && counted(ph, 0) && h.Succs[0] == h {
			for _, pred := range h.Preds {
				if pred == h || len(pred.Instrs) == 0 {
					continue
				}
				gi, isIf := pred.Instrs[len(pred.Instrs)-1].(*ssa.If)
				if !isIf || pred.Succs[0] != h {
					return nil, false
				}
				g, isCmp := gi.Cond.(*ssa.BinOp)
				if !isCmp || g.Op != token.LSS || g.Y != be.Y {
					return nil, false
				}
				if k, isC := ConstInt(g.X); !isC || k != 0 {
					return nil, false
				}
			}
			return be.Y, true
		}
	}
	return nil, false
}
