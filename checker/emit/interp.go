package emit

import (
	"fmt"
	"go/ast"
	"go/constant"
	"go/token"
	"go/types"
	"os"
	"regexp"
	"sort"
	"strings"
)

// SInv is the symbolic grammar state "wherever the handler invariant says the
// pre-rendered bytes end" — resolved from the tracked separator flag on first use.
const SInv = -1

// State of the abstract interpreter.
type State struct {
	G         G
	Env       map[string]bool // tracked booleans and memoised side-effect-free predicates
	NOpen     int             // increments applied to the open-group counter of the handler being built
	NZero     bool            // the receiver's symbolic number of open groups is known to be zero
	NeedGroup bool            // path exists only if a slog.Value of kind Group reached a value emitter
	Snap      map[string]G    // grammar state remembered by `n := len(*buf)` (restored by `*buf = (*buf)[:n]`)
}

func (s State) clone() State {
	n := s
	n.Env = make(map[string]bool, len(s.Env))
	for k, v := range s.Env {
		n.Env[k] = v
	}
	if s.Snap != nil {
		n.Snap = make(map[string]G, len(s.Snap))
		for k, v := range s.Snap {
			n.Snap[k] = v
		}
	}
	return n
}

func (s State) key() string {
	var ks []string
	for k, v := range s.Env {
		ks = append(ks, fmt.Sprintf("%s=%v", k, v))
	}
	sort.Strings(ks)
	var sn []string
	for k, v := range s.Snap {
		sn = append(sn, fmt.Sprintf("%s@%d", k, v.S))
	}
	sort.Strings(sn)
	return fmt.Sprintf("%d/%d/%d/%v/%d/%v/%v|%s|%s", s.G.S, s.G.C, s.G.K, s.G.Abs, s.NOpen, s.NZero, s.NeedGroup, strings.Join(ks, ","), strings.Join(sn, ","))
}

func dedup(in []State) []State {
	seen := map[string]bool{}
	var out []State
	for _, s := range in {
		k := s.key()
		if !seen[k] {
			seen[k] = true
			out = append(out, s)
		}
	}
	return out
}

// Outcome of calling an emitter: relative to the state at entry.
type Outcome struct {
	S         int
	DC, DK    int
	Ret       int8 // -1: no bool result, 0 false, 1 true
	NeedGroup bool
	Abs       bool // the callee emitted the line's opening brace: depth is absolute from here on
}

// Sink classification of one append site (provided by the sanitizer analysis).
type SinkClass struct {
	Class string // const, preformatted, table:*, closed:number, closed:time, closed:duration, json-value, quoted, raw, sanitizer-internal
	Bytes []byte
}

// Config wires the interpreter to one handler family.
type Config struct {
	Gram      Grammar
	Info      *types.Info
	Fset      *token.FileSet
	Decls     map[*types.Func]*ast.FuncDecl
	BufParam  map[*types.Func]int // emitter -> index of its line-buffer parameter
	Sanitizer *types.Func
	SanToken  string
	Ignore    map[*types.Func]bool // calls that never emit although they take the buffer (pool release …)
	PreField  *types.Var
	SepField  *types.Var // JSON: separator flag
	OpenField *types.Var // JSON: open-group counter
	ClassAt   func(lparen token.Pos) (SinkClass, bool)
	TokenOf   func(class string) string // token for a non-constant sink class ("" = not allowed)
	IsColour  func(e ast.Expr) bool     // the colour flag (fixed to false)
	// Pre applies the handler invariant for `append(buf, X.pre...)`; sep is the tracked flag of X (nil if untracked)
	Pre func(g G, sep *bool) ([]G, []bool, error)
	// Resolve turns SInv into a concrete state given the separator flag
	Resolve func(sep bool) int
	Pos     func(token.Pos) string
}

type Problem struct {
	Pos, Msg, Fn string
}

type Interp struct {
	cfg        Config
	memo       map[string][]Outcome
	active     map[string]bool
	usedActive map[string]bool
	inPlace    map[*types.Func]bool
	done       map[string]bool
	Problems   []Problem
	probSeen   map[string]bool
	Undecided  []Problem
	Summaries  map[string][]Outcome
	Visited    map[token.Pos]bool // append sites the interpreter executed abstractly
	curFn      string
	curEntry   string // "<function>|<entry state>|<boolean arguments>" of the summary being computed
}

func New(cfg Config) *Interp {
	return &Interp{cfg: cfg, memo: map[string][]Outcome{}, active: map[string]bool{}, usedActive: map[string]bool{}, inPlace: map[*types.Func]bool{}, done: map[string]bool{}, probSeen: map[string]bool{}, Summaries: map[string][]Outcome{}, Visited: map[token.Pos]bool{}}
}

func (it *Interp) problem(pos token.Pos, format string, a ...any) {
	msg := fmt.Sprintf(format, a...)
	if it.curEntry != "" {
		msg += " [summary of " + it.curEntry + "]"
	}
	p := Problem{it.cfg.Pos(pos), msg, it.curFn}
	k := p.Pos + p.Msg
	if !it.probSeen[k] {
		it.probSeen[k] = true
		it.Problems = append(it.Problems, p)
	}
}

func (it *Interp) undecided(pos token.Pos, format string, a ...any) {
	p := Problem{it.cfg.Pos(pos), fmt.Sprintf(format, a...), it.curFn}
	k := "U" + p.Pos + p.Msg
	if !it.probSeen[k] {
		it.probSeen[k] = true
		it.Undecided = append(it.Undecided, p)
	}
}

// ---- function context ----

type fctx struct {
	decl    *ast.FuncDecl
	obj     *types.Func
	bufs    map[string]bool // identifiers denoting the line buffer pointer
	retBool bool
	lit     *ast.FuncLit // when interpreting a closure body
	byValue bool         // the function receives the line as a slice and returns it
}

type retState struct {
	St  State
	Ret int8
}

type flow struct {
	normal    []State
	returns   []retState
	breaks    []State
	continues []State
}

func (f *flow) merge(o flow) {
	f.returns = append(f.returns, o.returns...)
	f.breaks = append(f.breaks, o.breaks...)
	f.continues = append(f.continues, o.continues...)
}

var identRe = regexp.MustCompile(`[A-Za-z_][A-Za-z_0-9]*`)

func mentions(key, ident string) bool {
	for _, m := range identRe.FindAllString(key, -1) {
		if m == ident {
			return true
		}
	}
	return false
}

func invalidate(st *State, ident string) {
	for k := range st.Env {
		if mentions(k, ident) {
			delete(st.Env, k)
		}
	}
}

func exprString(e ast.Expr) string { return types.ExprString(e) }

func rootIdent(e ast.Expr) string {
	for {
		switch x := e.(type) {
		case *ast.Ident:
			return x.Name
		case *ast.SelectorExpr:
			e = x.X
		case *ast.StarExpr:
			e = x.X
		case *ast.ParenExpr:
			e = x.X
		case *ast.UnaryExpr:
			e = x.X
		case *ast.IndexExpr:
			e = x.X
		default:
			return ""
		}
	}
}

func (it *Interp) fieldOf(e ast.Expr) *types.Var {
	sel, ok := e.(*ast.SelectorExpr)
	if !ok {
		return nil
	}
	if s := it.cfg.Info.Selections[sel]; s != nil {
		if v, ok := s.Obj().(*types.Var); ok && v.IsField() {
			return v
		}
	}
	return nil
}

// bufExpr: e denotes the line buffer *contents* (`*buf`, `h2.preformatted`); base is the owner ("" for a pointer variable).
func (it *Interp) bufDeref(fc *fctx, e ast.Expr) (base string, ok bool) {
	if id, isID := e.(*ast.Ident); isID && fc.bufs["="+id.Name] {
		return "", true
	}
	switch x := e.(type) {
	case *ast.StarExpr:
		if id, isID := x.X.(*ast.Ident); isID && fc.bufs[id.Name] {
			return "", true
		}
		// `*w.buf`: the buffer pointer kept in a field of the bound receiver (see attrsBoundMethod)
		if sel, isSel := x.X.(*ast.SelectorExpr); isSel && fc.bufs[exprString(sel)] {
			return "", true
		}
	case *ast.ParenExpr:
		return it.bufDeref(fc, x.X)
	case *ast.SelectorExpr:
		if it.cfg.PreField != nil && it.fieldOf(x) == it.cfg.PreField {
			b := exprString(x.X)
			if fc.bufs["&"+b] {
				return b, true
			}
		}
	}
	return "", false
}

// bufPass: e passes the line buffer pointer (`buf`, `&h2.preformatted`).
func (it *Interp) bufPass(fc *fctx, e ast.Expr) (base string, ok bool) {
	switch x := e.(type) {
	case *ast.Ident:
		return "", fc.bufs[x.Name]
	case *ast.SelectorExpr:
		if fc.bufs[exprString(x)] {
			return "", true
		}
	case *ast.UnaryExpr:
		if x.Op == token.AND {
			if id, isID := x.X.(*ast.Ident); isID && fc.bufs["="+id.Name] {
				return "", true
			}
			if sel, isSel := x.X.(*ast.SelectorExpr); isSel && it.cfg.PreField != nil && it.fieldOf(sel) == it.cfg.PreField {
				b := exprString(sel.X)
				return b, fc.bufs["&"+b]
			}
		}
	}
	return "", false
}

func (it *Interp) calleeOf(call *ast.CallExpr) *types.Func {
	switch f := call.Fun.(type) {
	case *ast.Ident:
		fn, _ := it.cfg.Info.Uses[f].(*types.Func)
		return fn
	case *ast.SelectorExpr:
		fn, _ := it.cfg.Info.Uses[f.Sel].(*types.Func)
		return fn
	}
	return nil
}

// resolve makes the symbolic invariant state concrete.
func (it *Interp) resolve(st State, base string) []State {
	if st.G.S != SInv {
		return []State{st}
	}
	if it.cfg.SepField == nil || it.cfg.Resolve == nil {
		n := st.clone()
		n.G.S = it.cfg.Resolve(true)
		return []State{n}
	}
	key := base + "." + it.cfg.SepField.Name()
	if v, ok := st.Env[key]; ok {
		n := st.clone()
		n.G.S = it.cfg.Resolve(v)
		return []State{n}
	}
	var out []State
	for _, v := range []bool{true, false} {
		n := st.clone()
		n.Env[key] = v
		n.G.S = it.cfg.Resolve(v)
		out = append(out, n)
	}
	return out
}

// emitBytes / emitToken advance the grammar.
func (it *Interp) emitBytes(pos token.Pos, in []State, base string, bs []byte) []State {
	var out []State
	for _, s0 := range in {
		for _, st := range it.resolve(s0, base) {
			ok := true
			for _, b := range bs {
				g, err := it.cfg.Gram.Byte(st.G, b)
				if err != nil {
					it.problem(pos, "%v (constant %q)", err, string(bs))
					ok = false
					break
				}
				st.G = g
			}
			if ok {
				out = append(out, st)
			}
		}
	}
	return dedup(out)
}

func (it *Interp) emitToken(pos token.Pos, in []State, base string, tok string) []State {
	var out []State
	for _, s0 := range in {
		for _, st := range it.resolve(s0, base) {
			g, err := it.cfg.Gram.Token(st.G, tok)
			if err != nil {
				it.problem(pos, "%v", err)
				continue
			}
			st.G = g
			out = append(out, st)
		}
	}
	return dedup(out)
}

// ---- expression evaluation ----

type condFork struct {
	St  State
	Val bool
}

func (it *Interp) boolKey(fc *fctx, e ast.Expr) (string, bool) {
	switch x := e.(type) {
	case *ast.Ident:
		if b, ok := it.cfg.Info.TypeOf(x).Underlying().(*types.Basic); ok && b.Kind() == types.Bool || it.cfg.Info.TypeOf(x) != nil && it.cfg.Info.TypeOf(x).String() == "untyped bool" {
			return x.Name, true
		}
	case *ast.SelectorExpr:
		if t := it.cfg.Info.TypeOf(x); t != nil {
			if b, ok := t.Underlying().(*types.Basic); ok && b.Kind() == types.Bool {
				return exprString(x), true
			}
		}
	}
	return "", false
}

func (it *Interp) evalCond(fc *fctx, e ast.Expr, st State) []condFork {
	switch x := e.(type) {
	case *ast.ParenExpr:
		return it.evalCond(fc, x.X, st)
	case *ast.UnaryExpr:
		if x.Op == token.NOT {
			fs := it.evalCond(fc, x.X, st)
			for i := range fs {
				fs[i].Val = !fs[i].Val
			}
			return fs
		}
	case *ast.BinaryExpr:
		// `X.open > 0` / `!= 0` / `== 0` on the handler's open-group counter: the zero case is the counted loop's
		// zero-iterations outcome
		if it.cfg.OpenField != nil {
			isZero := func(e ast.Expr) bool {
				tv, ok := it.cfg.Info.Types[e]
				if !ok || tv.Value == nil {
					return false
				}
				n, exact := constant.Int64Val(constant.ToInt(tv.Value))
				return exact && n == 0
			}
			open, zero, op := x.X, x.Y, x.Op
			if isZero(x.X) {
				open, zero = x.Y, x.X
				switch op {
				case token.LSS:
					op = token.GTR
				case token.GTR:
					op = token.LSS
				}
			}
			if it.fieldOf(ast.Unparen(open)) == it.cfg.OpenField && isZero(zero) && (op == token.GTR || op == token.NEQ || op == token.EQL) {
				var out []condFork
				z := st.clone()
				z.NZero = true
				z.G.K = 0
				out = append(out, condFork{z, op == token.EQL})
				if !st.NZero {
					out = append(out, condFork{st, op != token.EQL})
				}
				return out
			}
		}
		switch x.Op {
		case token.LAND:
			var out []condFork
			for _, l := range it.evalCond(fc, x.X, st) {
				if !l.Val {
					out = append(out, condFork{l.St, false})
					continue
				}
				out = append(out, it.evalCond(fc, x.Y, l.St)...)
			}
			return out
		case token.LOR:
			var out []condFork
			for _, l := range it.evalCond(fc, x.X, st) {
				if l.Val {
					out = append(out, condFork{l.St, true})
					continue
				}
				out = append(out, it.evalCond(fc, x.Y, l.St)...)
			}
			return out
		}
	case *ast.CallExpr:
		if fn := it.calleeOf(x); fn != nil {
			if _, isEm := it.cfg.BufParam[fn]; isEm && fn != it.cfg.Sanitizer {
				var out []condFork
				for _, r := range it.applyCall(fc, x, fn, []State{st}) {
					if r.Ret < 0 {
						it.undecided(x.Pos(), "emitter without boolean result used as a condition")
						continue
					}
					out = append(out, condFork{r.St, r.Ret == 1})
				}
				return out
			}
		}
	}
	if tv, ok := it.cfg.Info.Types[e]; ok && tv.Value != nil && tv.Value.Kind() == constant.Bool {
		return []condFork{{st, constant.BoolVal(tv.Value)}}
	}
	if it.cfg.IsColour != nil && it.cfg.IsColour(e) {
		return []condFork{{st, false}}
	}
	key, tracked := it.boolKey(fc, e)
	if !tracked {
		key = "pred:" + exprString(e)
	}
	if v, ok := st.Env[key]; ok {
		return []condFork{{st, v}}
	}
	t, f := st.clone(), st.clone()
	t.Env[key], f.Env[key] = true, false
	return []condFork{{t, true}, {f, false}}
}

// evalBool evaluates a boolean rvalue: known value or unknown.
func (it *Interp) evalBool(fc *fctx, e ast.Expr, st State) (val bool, known bool) {
	if tv, ok := it.cfg.Info.Types[e]; ok && tv.Value != nil && tv.Value.Kind() == constant.Bool {
		return constant.BoolVal(tv.Value), true
	}
	if it.cfg.IsColour != nil && it.cfg.IsColour(e) {
		return false, true
	}
	if key, ok := it.boolKey(fc, e); ok {
		v, k := st.Env[key]
		return v, k
	}
	if u, ok := e.(*ast.UnaryExpr); ok && u.Op == token.NOT {
		v, k := it.evalBool(fc, u.X, st)
		return !v, k
	}
	if pe, ok := e.(*ast.ParenExpr); ok {
		return it.evalBool(fc, pe.X, st)
	}
	if b, ok := e.(*ast.BinaryExpr); ok && (b.Op == token.LOR || b.Op == token.LAND) {
		// three-valued: a known operand may decide the result
		lv, lk := it.evalBool(fc, b.X, st)
		rv, rk := it.evalBool(fc, b.Y, st)
		if b.Op == token.LOR {
			switch {
			case lk && lv, rk && rv:
				return true, true
			case lk && rk:
				return false, true
			}
		} else {
			switch {
			case lk && !lv, rk && !rv:
				return false, true
			case lk && rk:
				return true, true
			}
		}
		return false, false
	}
	if b, ok := e.(*ast.BinaryExpr); ok && (b.Op == token.GTR || b.Op == token.EQL || b.Op == token.NEQ || b.Op == token.LSS) {
		v, k := st.Env["pred:"+exprString(e)]
		return v, k
	}
	return false, false
}

// ---- statements ----

func (it *Interp) block(fc *fctx, stmts []ast.Stmt, in []State) flow {
	fl := flow{}
	cur := in
	for _, s := range stmts {
		if len(cur) == 0 {
			break
		}
		r := it.stmt(fc, s, cur)
		fl.merge(r)
		cur = dedup(r.normal)
	}
	fl.normal = cur
	return fl
}

func (it *Interp) stmt(fc *fctx, s ast.Stmt, in []State) flow {
	switch x := s.(type) {
	case *ast.BlockStmt:
		return it.block(fc, x.List, in)
	case *ast.ExprStmt:
		if call, ok := x.X.(*ast.CallExpr); ok {
			return flow{normal: it.callStmt(fc, call, in)}
		}
		return flow{normal: in}
	case *ast.AssignStmt:
		return flow{normal: it.assign(fc, x, in)}
	case *ast.IncDecStmt:
		var out []State
		for _, st := range in {
			n := st.clone()
			if it.cfg.OpenField != nil && it.fieldOf(x.X) == it.cfg.OpenField {
				if x.Tok == token.INC {
					n.NOpen++
				} else {
					n.NOpen--
				}
			} else if id := rootIdent(x.X); id != "" {
				invalidate(&n, id)
			}
			out = append(out, n)
		}
		return flow{normal: out}
	case *ast.DeclStmt:
		var out []State
		for _, st := range in {
			n := st.clone()
			if gd, ok := x.Decl.(*ast.GenDecl); ok {
				for _, sp := range gd.Specs {
					if vs, ok := sp.(*ast.ValueSpec); ok {
						for i, nm := range vs.Names {
							invalidate(&n, nm.Name)
							if t := it.cfg.Info.TypeOf(nm); t != nil {
								if b, ok := t.Underlying().(*types.Basic); ok && b.Kind() == types.Bool {
									if i < len(vs.Values) {
										if v, k := it.evalBool(fc, vs.Values[i], n); k {
											n.Env[nm.Name] = v
										}
									} else {
										n.Env[nm.Name] = false
									}
								}
							}
						}
					}
				}
			}
			out = append(out, n)
		}
		return flow{normal: out}
	case *ast.IfStmt:
		fl := flow{}
		cur := in
		if x.Init != nil {
			r := it.stmt(fc, x.Init, cur)
			fl.merge(r)
			cur = r.normal
		}
		var thenIn, elseIn []State
		for _, st := range cur {
			for _, f := range it.condWithPre(fc, x.Cond, st) {
				if f.Val {
					thenIn = append(thenIn, f.St)
				} else {
					elseIn = append(elseIn, f.St)
				}
			}
		}
		tr := it.block(fc, x.Body.List, dedup(thenIn))
		fl.merge(tr)
		fl.normal = append(fl.normal, tr.normal...)
		if x.Else != nil {
			er := it.stmt(fc, x.Else, dedup(elseIn))
			fl.merge(er)
			fl.normal = append(fl.normal, er.normal...)
		} else {
			fl.normal = append(fl.normal, elseIn...)
		}
		fl.normal = dedup(fl.normal)
		return fl
	case *ast.ForStmt:
		return it.forStmt(fc, x, in)
	case *ast.RangeStmt:
		// `for range X.open` / `for range X.open + k`: the body runs once per open group (and k more times)
		if x.Key == nil && x.Value == nil {
			if isOpen, k := it.openCountExpr(x.X); isOpen {
				fl := it.openCounted(fc, x.Pos(), x.Body, in)
				for ; k > 0; k-- {
					r := it.block(fc, x.Body.List, fl.normal)
					fl.normal = r.normal
				}
				return fl
			}
		}
		var names []string
		for _, e := range []ast.Expr{x.Key, x.Value} {
			if id, ok := e.(*ast.Ident); ok && id.Name != "_" {
				names = append(names, id.Name)
			}
		}
		return it.loop(fc, nil, x.Body, nil, in, names)
	case *ast.SwitchStmt:
		return it.switchStmt(fc, x, in)
	case *ast.TypeSwitchStmt:
		fl := flow{}
		cur := in
		if x.Init != nil {
			r := it.stmt(fc, x.Init, cur)
			cur = r.normal
		}
		hasDefault := false
		for _, c := range x.Body.List {
			cc := c.(*ast.CaseClause)
			if cc.List == nil {
				hasDefault = true
			}
			var start []State
			for _, st := range cur {
				n := st.clone()
				if as, ok := x.Assign.(*ast.AssignStmt); ok {
					for _, l := range as.Lhs {
						if id, ok := l.(*ast.Ident); ok {
							invalidate(&n, id.Name)
						}
					}
				}
				start = append(start, n)
			}
			r := it.block(fc, cc.Body, start)
			fl.merge(r)
			fl.normal = append(fl.normal, r.normal...)
		}
		if !hasDefault {
			fl.normal = append(fl.normal, cur...)
		}
		fl.normal = dedup(fl.normal)
		// breaks inside a switch leave the switch
		fl.normal = dedup(append(fl.normal, fl.breaks...))
		fl.breaks = nil
		return fl
	case *ast.ReturnStmt:
		fl := flow{}
		if fc.byValue && len(x.Results) == 1 {
			// `return append(buf, …)` / `return appendY(buf, …)`: the returned value is the line after that step
			if call, isCall := ast.Unparen(x.Results[0]).(*ast.CallExpr); isCall && len(call.Args) > 0 {
				if fn := it.calleeOf(call); fn != nil && it.byValueEmitter(fn) {
					for _, r := range it.applyCall(fc, call, fn, in) {
						fl.returns = append(fl.returns, retState{r.St, -1})
					}
					return fl
				}
				if base, isBuf := it.bufDeref(fc, call.Args[0]); isBuf {
					for _, st := range it.emission(fc, call, base, in) {
						fl.returns = append(fl.returns, retState{st, -1})
					}
					return fl
				}
			}
			if _, isBuf := it.bufDeref(fc, x.Results[0]); !isBuf {
				it.undecided(x.Pos(), "a by-value emitter returns something other than the line")
			}
		}
		for _, st := range in {
			if !fc.retBool || len(x.Results) == 0 {
				fl.returns = append(fl.returns, retState{st, -1})
				continue
			}
			res := x.Results[len(x.Results)-1]
			if fc.lit == nil && len(x.Results) != 1 {
				res = x.Results[0]
			}
			if v, k := it.evalBool(fc, res, st); k {
				r := int8(0)
				if v {
					r = 1
				}
				fl.returns = append(fl.returns, retState{st, r})
			} else {
				// `return emitter(...)`, `return a || emitter(...)`: evaluated like a condition (the calls run, in order)
				for _, f := range it.evalCond(fc, res, st) {
					r := int8(0)
					if f.Val {
						r = 1
					}
					fl.returns = append(fl.returns, retState{f.St, r})
				}
			}
		}
		return fl
	case *ast.BranchStmt:
		if x.Label != nil {
			it.undecided(x.Pos(), "labelled %s is outside the fragment", x.Tok)
			return flow{}
		}
		switch x.Tok {
		case token.BREAK:
			return flow{breaks: in}
		case token.CONTINUE:
			return flow{continues: in}
		}
		it.undecided(x.Pos(), "%s is outside the fragment", x.Tok)
		return flow{}
	case *ast.DeferStmt:
		return flow{normal: in}
	case *ast.GoStmt:
		for _, a := range x.Call.Args {
			if _, ok := it.bufPass(fc, a); ok {
				it.undecided(x.Pos(), "line buffer handed to a goroutine")
			}
		}
		return flow{normal: in}
	case *ast.EmptyStmt:
		return flow{normal: in}
	case *ast.LabeledStmt:
		it.undecided(x.Pos(), "labelled statement is outside the fragment")
		return it.stmt(fc, x.Stmt, in)
	}
	return flow{normal: in}
}

// condWithPre recognises `len(X.pre) > 0`: on the false edge the pre-rendered bytes are empty, so by the
// handler invariant the separator flag is true and no group is open.
func (it *Interp) condWithPre(fc *fctx, cond ast.Expr, st State) []condFork {
	if b, ok := cond.(*ast.BinaryExpr); ok && (b.Op == token.GTR || b.Op == token.NEQ) && it.cfg.PreField != nil {
		if call, ok := b.X.(*ast.CallExpr); ok && len(call.Args) == 1 {
			if id, ok := call.Fun.(*ast.Ident); ok && id.Name == "len" && it.fieldOf(call.Args[0]) == it.cfg.PreField {
				base := exprString(call.Args[0].(*ast.SelectorExpr).X)
				t, f := st.clone(), st.clone()
				out := []condFork{{t, true}}
				if it.cfg.SepField != nil {
					key := base + "." + it.cfg.SepField.Name()
					if v, known := f.Env[key]; known && !v {
						return out // empty bytes with a pending "no separator" flag contradicts the invariant
					}
					f.Env[key] = true
				}
				f.NZero = true
				f.G.K = 0
				return append(out, condFork{f, false})
			}
		}
	}
	return it.evalCond(fc, cond, st)
}

func (it *Interp) forStmt(fc *fctx, x *ast.ForStmt, in []State) flow {
	// counted loop over the handler's open-group counter: `for i := 0; i < X.open; i++ { … }` or counting down from it
	if isOpen, k := it.openCountLoop(x); isOpen {
		fl := it.openCounted(fc, x.Pos(), x.Body, in)
		for ; k > 0; k-- { // `i < X.open + k` / `n := X.open + k`: k more runs of the body
			r := it.block(fc, x.Body.List, fl.normal)
			fl.normal = r.normal
		}
		return fl
	}
	var names []string
	if as, ok := x.Init.(*ast.AssignStmt); ok {
		for _, l := range as.Lhs {
			if id, ok := l.(*ast.Ident); ok {
				names = append(names, id.Name)
			}
		}
	}
	return it.loop(fc, x.Cond, x.Body, x.Post, in, names)
}

// openCounted: the effect of running body exactly N times, N the handler's open-group counter.
func (it *Interp) openCounted(fc *fctx, pos token.Pos, body *ast.BlockStmt, in []State) flow {
	fl := flow{}
	for _, s0 := range in {
		fl.normal = append(fl.normal, func() State { z := s0.clone(); z.NZero = true; z.G.K = 0; return z }())
		if s0.NZero {
			continue
		}
		r1 := it.block(fc, body.List, []State{s0})
		for _, s1 := range r1.normal {
			r2 := it.block(fc, body.List, []State{s1})
			stable := len(r2.normal) > 0
			for _, s2 := range r2.normal {
				if s2.G.S != s1.G.S || s2.G.C-s1.G.C != s1.G.C-s0.G.C {
					stable = false
				}
			}
			if !stable {
				it.undecided(pos, "the body of the loop over the open-group counter does not have a uniform effect")
				continue
			}
			n := s1.clone()
			n.G.C = s0.G.C
			n.G.K = s0.G.K + (s1.G.C - s0.G.C)
			fl.normal = append(fl.normal, n)
		}
	}
	fl.normal = dedup(fl.normal)
	return fl
}

// openCountExpr: e is X.open or X.open + k (k a non-negative constant).
func (it *Interp) openCountExpr(e ast.Expr) (bool, int) {
	if it.cfg.OpenField == nil {
		return false, 0
	}
	e = ast.Unparen(e)
	if it.fieldOf(e) == it.cfg.OpenField {
		return true, 0
	}
	if be, ok := e.(*ast.BinaryExpr); ok && be.Op == token.ADD {
		f, kexp := be.X, be.Y
		if it.fieldOf(ast.Unparen(be.Y)) == it.cfg.OpenField {
			f, kexp = be.Y, be.X
		}
		if it.fieldOf(ast.Unparen(f)) == it.cfg.OpenField {
			if tv, ok := it.cfg.Info.Types[kexp]; ok && tv.Value != nil {
				if k, exact := constant.Int64Val(constant.ToInt(tv.Value)); exact && k >= 0 && k < 8 {
					return true, int(k)
				}
			}
		}
	}
	return false, 0
}

// openCountLoop: the loop runs exactly X.open times (X.open the handler's open-group counter) and its body does not
// touch the loop variable: `for i := 0; i < X.open; i++`, `for n := X.open; n > 0; n--` (or `n != 0`); X.open + k
// (k a small non-negative constant) in place of X.open makes it run k more times, which is what the int reports.
func (it *Interp) openCountLoop(x *ast.ForStmt) (bool, int) {
	if it.cfg.OpenField == nil {
		return false, 0
	}
	be, ok := x.Cond.(*ast.BinaryExpr)
	if !ok {
		return false, 0
	}
	as, ok := x.Init.(*ast.AssignStmt)
	if !ok || len(as.Lhs) != 1 || len(as.Rhs) != 1 {
		return false, 0
	}
	v, ok := as.Lhs[0].(*ast.Ident)
	if !ok {
		return false, 0
	}
	isVar := func(e ast.Expr) bool { id, ok := e.(*ast.Ident); return ok && id.Name == v.Name }
	isConst := func(e ast.Expr, k int64) bool {
		tv, ok := it.cfg.Info.Types[e]
		if !ok || tv.Value == nil {
			return false
		}
		n, exact := constant.Int64Val(constant.ToInt(tv.Value))
		return exact && n == k
	}
	step := 0
	switch p := x.Post.(type) {
	case *ast.IncDecStmt:
		if isVar(p.X) {
			if p.Tok == token.INC {
				step = 1
			} else {
				step = -1
			}
		}
	case *ast.AssignStmt:
		if len(p.Lhs) == 1 && len(p.Rhs) == 1 && isVar(p.Lhs[0]) && isConst(p.Rhs[0], 1) {
			if p.Tok == token.ADD_ASSIGN {
				step = 1
			} else if p.Tok == token.SUB_ASSIGN {
				step = -1
			}
		}
	}
	// the body must not assign the loop variable
	touched := false
	ast.Inspect(x.Body, func(n ast.Node) bool {
		switch y := n.(type) {
		case *ast.AssignStmt:
			for _, l := range y.Lhs {
				if isVar(l) {
					touched = true
				}
			}
		case *ast.IncDecStmt:
			if isVar(y.X) {
				touched = true
			}
		}
		return true
	})
	if touched {
		return false, 0
	}
	switch {
	case step == 1 && isConst(as.Rhs[0], 0) && be.Op == token.LSS && isVar(be.X):
		return it.openCountExpr(be.Y)
	case step == -1 && isVar(be.X) && isConst(be.Y, 0) && (be.Op == token.GTR || be.Op == token.NEQ):
		return it.openCountExpr(as.Rhs[0])
	}
	return false, 0
}

// loop: zero or more iterations, least fixpoint over the finite state set.
func (it *Interp) loop(fc *fctx, cond ast.Expr, body *ast.BlockStmt, post ast.Stmt, in []State, loopVars []string) flow {
	fl := flow{}
	seen := map[string]bool{}
	var exits []State
	work := in
	for iter := 0; len(work) > 0 && iter < 64; iter++ {
		var next []State
		for _, s0 := range work {
			st := s0.clone()
			for _, v := range loopVars {
				invalidate(&st, v)
			}
			if seen[st.key()] {
				continue
			}
			seen[st.key()] = true
			// zero further iterations
			exits = append(exits, st)
			bodyIn := []State{st}
			if cond != nil {
				bodyIn = nil
				for _, f := range it.evalCond(fc, cond, st) {
					if f.Val {
						bodyIn = append(bodyIn, f.St)
					}
				}
			}
			r := it.block(fc, body.List, bodyIn)
			fl.returns = append(fl.returns, r.returns...)
			exits = append(exits, r.breaks...)
			next = append(next, r.normal...)
			next = append(next, r.continues...)
		}
		work = dedup(next)
	}
	if len(work) > 0 {
		it.undecided(body.Pos(), "loop did not reach a fixpoint")
	}
	// predicates about loop variables do not survive the loop
	var out []State
	for _, e := range exits {
		n := e.clone()
		for _, v := range loopVars {
			invalidate(&n, v)
		}
		out = append(out, n)
	}
	fl.normal = dedup(out)
	return fl
}

func (it *Interp) switchStmt(fc *fctx, x *ast.SwitchStmt, in []State) flow {
	fl := flow{}
	cur := in
	if x.Init != nil {
		r := it.stmt(fc, x.Init, cur)
		cur = r.normal
	}
	if x.Tag == nil {
		// tagless: if/else-if chain
		rest := cur
		hasDefault := false
		var defBody []ast.Stmt
		for _, c := range x.Body.List {
			cc := c.(*ast.CaseClause)
			if cc.List == nil {
				hasDefault, defBody = true, cc.Body
				continue
			}
			var take, skip []State
			for _, st := range rest {
				matched := false
				_ = matched
				states := []State{st}
				for _, e := range cc.List {
					var nextStates []State
					for _, s1 := range states {
						for _, f := range it.evalCond(fc, e, s1) {
							if f.Val {
								take = append(take, f.St)
							} else {
								nextStates = append(nextStates, f.St)
							}
						}
					}
					states = nextStates
				}
				skip = append(skip, states...)
			}
			r := it.block(fc, cc.Body, dedup(take))
			fl.merge(r)
			fl.normal = append(fl.normal, r.normal...)
			rest = dedup(skip)
		}
		if hasDefault {
			r := it.block(fc, defBody, rest)
			fl.merge(r)
			fl.normal = append(fl.normal, r.normal...)
		} else {
			fl.normal = append(fl.normal, rest...)
		}
	} else {
		// kind switch?
		covered := map[int64]bool{}
		isKind := false
		if call, ok := x.Tag.(*ast.CallExpr); ok {
			if sel, ok := call.Fun.(*ast.SelectorExpr); ok && sel.Sel.Name == "Kind" {
				if t := it.cfg.Info.TypeOf(sel.X); t != nil && strings.HasSuffix(t.String(), "log/slog.Value") {
					isKind = true
				}
			}
		}
		hasDefault := false
		for _, c := range x.Body.List {
			cc := c.(*ast.CaseClause)
			if cc.List == nil {
				hasDefault = true
			}
			for _, e := range cc.List {
				if tv, ok := it.cfg.Info.Types[e]; ok && tv.Value != nil {
					if k, exact := constant.Int64Val(constant.ToInt(tv.Value)); exact {
						covered[k] = true
					}
				}
			}
			var start []State
			for _, st := range cur {
				start = append(start, st.clone())
			}
			for i, s := range cc.Body {
				if br, ok := s.(*ast.BranchStmt); ok && br.Tok == token.FALLTHROUGH {
					it.undecided(br.Pos(), "fallthrough is outside the fragment")
					cc.Body = cc.Body[:i]
				}
			}
			r := it.block(fc, cc.Body, start)
			fl.merge(r)
			fl.normal = append(fl.normal, r.normal...)
		}
		if !hasDefault {
			onlyGroup := isKind
			if isKind {
				// slog kinds: Any=0 Bool=1 Duration=2 Float64=3 Int64=4 String=5 Time=6 Uint64=7 Group=8 LogValuer=9
				for k := int64(0); k <= 9; k++ {
					if !covered[k] && k != 8 && k != 9 {
						onlyGroup = false
					}
				}
			}
			for _, st := range cur {
				n := st.clone()
				if onlyGroup {
					n.NeedGroup = true
				}
				fl.normal = append(fl.normal, n)
			}
		}
	}
	fl.normal = dedup(append(fl.normal, fl.breaks...))
	fl.breaks = nil
	return fl
}

// assign handles emissions written as assignments and tracks booleans.
func (it *Interp) assign(fc *fctx, x *ast.AssignStmt, in []State) []State {
	// emission: `*buf = append(*buf, …)` / `*buf = pkg.AppendX(*buf, …)` / `h2.pre = append(h2.pre, …)`
	if len(x.Lhs) == 1 && len(x.Rhs) == 1 {
		// `n := len(*buf)`: remember the grammar state under the name n
		if id, ok := x.Lhs[0].(*ast.Ident); ok {
			if call, ok := x.Rhs[0].(*ast.CallExpr); ok && len(call.Args) == 1 {
				if f, ok := call.Fun.(*ast.Ident); ok && f.Name == "len" {
					if _, isBuf := it.bufDeref(fc, call.Args[0]); isBuf {
						var out []State
						for _, st := range in {
							n := st.clone()
							if n.Snap == nil {
								n.Snap = map[string]G{}
							}
							n.Snap[id.Name] = n.G
							out = append(out, n)
						}
						return dedup(out)
					}
				}
			}
		}
		if base, ok := it.bufDeref(fc, x.Lhs[0]); ok {
			// `*buf = (*buf)[:n]`: back to the remembered state
			if sl, ok := x.Rhs[0].(*ast.SliceExpr); ok && sl.Low == nil && sl.High != nil && !sl.Slice3 {
				if _, isBuf := it.bufDeref(fc, sl.X); isBuf {
					if id, ok := sl.High.(*ast.Ident); ok {
						var out []State
						okAll := true
						for _, st := range in {
							g, have := st.Snap[id.Name]
							if !have {
								okAll = false
								continue
							}
							n := st.clone()
							n.G = g
							out = append(out, n)
						}
						if okAll {
							return dedup(out)
						}
					}
				}
			}
			_ = base
			if call, ok := x.Rhs[0].(*ast.CallExpr); ok {
				if fn := it.calleeOf(call); fn != nil && it.byValueEmitter(fn) {
					var out []State
					for _, r := range it.applyCall(fc, call, fn, in) {
						out = append(out, r.St)
					}
					return dedup(out)
				}
				return it.emission(fc, call, base, in)
			}
			it.undecided(x.Pos(), "the line buffer is assigned something that is not an append")
			return in
		}
		// `x := emitter(...)`
		if call, ok := x.Rhs[0].(*ast.CallExpr); ok {
			if fn := it.calleeOf(call); fn != nil {
				if _, isEm := it.cfg.BufParam[fn]; isEm && fn != it.cfg.Sanitizer {
					var out []State
					for _, r := range it.applyCall(fc, call, fn, in) {
						n := r.St.clone()
						if id, ok := x.Lhs[0].(*ast.Ident); ok {
							invalidate(&n, id.Name)
							if r.Ret >= 0 {
								n.Env[id.Name] = r.Ret == 1
							}
						} else if key, isBool := it.boolKey(fc, x.Lhs[0]); isBool {
							// a boolean field (`h2.addSep = emitter(...)`)
							delete(n.Env, key)
							if r.Ret >= 0 {
								n.Env[key] = r.Ret == 1
							}
						}
						out = append(out, n)
					}
					return dedup(out)
				}
			}
		}
	}
	// `flag = emitter(...) || flag`, `flag = a && !b`, …: a boolean expression with side effects or connectives is
	// evaluated like a condition (short-circuit order, emitter calls executed), each outcome assigned to the flag
	if len(x.Lhs) == 1 && len(x.Rhs) == 1 && (x.Tok == token.ASSIGN || x.Tok == token.DEFINE) {
		if key, isBool := it.boolKey(fc, x.Lhs[0]); isBool {
			compound := false
			ast.Inspect(x.Rhs[0], func(n ast.Node) bool {
				switch y := n.(type) {
				case *ast.BinaryExpr:
					if y.Op == token.LOR || y.Op == token.LAND {
						compound = true
					}
				case *ast.CallExpr:
					if fn := it.calleeOf(y); fn != nil {
						if _, isEm := it.cfg.BufParam[fn]; isEm {
							compound = true
						}
					}
				}
				return true
			})
			if compound {
				var out []State
				id := rootIdent(x.Lhs[0])
				for _, st := range in {
					for _, f := range it.evalCond(fc, x.Rhs[0], st) {
						n := f.St.clone()
						for k := range n.Env {
							if k == key || (strings.HasPrefix(k, "pred:") && id != "" && mentions(k, id) && !strings.Contains(key, ".")) {
								delete(n.Env, k)
							}
						}
						n.Env[key] = f.Val
						out = append(out, n)
					}
				}
				return dedup(out)
			}
		}
	}
	// `flag := h2.sep` with the flag's value not yet known: decide it here, so that the copy and the original stay equal
	if len(x.Rhs) == len(x.Lhs) && (x.Tok == token.ASSIGN || x.Tok == token.DEFINE) {
		for i := range x.Lhs {
			if _, isBool := it.boolKey(fc, x.Lhs[i]); !isBool {
				continue
			}
			rhs := ast.Unparen(x.Rhs[i])
			if u, ok := rhs.(*ast.UnaryExpr); ok && u.Op == token.NOT {
				rhs = ast.Unparen(u.X)
			}
			if _, simple := it.boolKey(fc, rhs); !simple {
				continue
			}
			if it.cfg.IsColour != nil && it.cfg.IsColour(rhs) {
				continue
			}
			var forked []State
			for _, st := range in {
				if _, known := it.evalBool(fc, rhs, st); known {
					forked = append(forked, st)
					continue
				}
				for _, f := range it.evalCond(fc, rhs, st) {
					forked = append(forked, f.St)
				}
			}
			in = forked
		}
	}
	var out []State
	for _, st := range in {
		n := st.clone()
		// evaluate all right-hand sides first
		type bv struct {
			v, k bool
		}
		vals := make([]bv, len(x.Lhs))
		for i := range x.Lhs {
			if len(x.Rhs) == len(x.Lhs) {
				v, k := it.evalBool(fc, x.Rhs[i], n)
				vals[i] = bv{v, k}
			}
		}
		for i, l := range x.Lhs {
			if it.cfg.OpenField != nil && it.fieldOf(l) == it.cfg.OpenField {
				if x.Tok == token.ADD_ASSIGN {
					if tv, ok := it.cfg.Info.Types[x.Rhs[i]]; ok && tv.Value != nil {
						k, _ := constant.Int64Val(constant.ToInt(tv.Value))
						n.NOpen += int(k)
						continue
					}
				}
				// `X.open = X.open + k` (also as one position of a tuple assignment)
				if x.Tok == token.ASSIGN && len(x.Rhs) == len(x.Lhs) {
					if be, ok := ast.Unparen(x.Rhs[i]).(*ast.BinaryExpr); ok && (be.Op == token.ADD || be.Op == token.SUB) {
						self, kexp := be.X, be.Y
						if be.Op == token.ADD && exprString(be.Y) == exprString(l) {
							self, kexp = be.Y, be.X
						}
						if tv, ok := it.cfg.Info.Types[kexp]; ok && tv.Value != nil && exprString(self) == exprString(l) {
							k, _ := constant.Int64Val(constant.ToInt(tv.Value))
							if be.Op == token.SUB {
								k = -k
							}
							n.NOpen += int(k)
							continue
						}
					}
				}
				it.undecided(x.Pos(), "the open-group counter is assigned in a way the interpreter does not model")
				continue
			}
			key, isBool := it.boolKey(fc, l)
			if id := rootIdent(l); id != "" {
				if isBool {
					// only predicates about this very variable die
					for k := range n.Env {
						if k == key || (strings.HasPrefix(k, "pred:") && mentions(k, id) && !strings.Contains(key, ".")) {
							delete(n.Env, k)
						}
					}
				} else {
					invalidate(&n, id)
				}
			}
			if isBool && len(x.Rhs) == len(x.Lhs) && vals[i].k && (x.Tok == token.ASSIGN || x.Tok == token.DEFINE) {
				n.Env[key] = vals[i].v
			} else if isBool {
				delete(n.Env, key)
			}
		}
		out = append(out, n)
	}
	return dedup(out)
}

// emission interprets one append to the line buffer.
func (it *Interp) emission(fc *fctx, call *ast.CallExpr, base string, in []State) []State {
	it.Visited[call.Lparen] = true
	cls, ok := it.cfg.ClassAt(call.Lparen)
	if !ok {
		it.undecided(call.Pos(), "append site not classified by the sanitizer analysis")
		return in
	}
	switch {
	case cls.Class == "const":
		return it.emitBytes(call.Pos(), in, base, cls.Bytes)
	case cls.Class == "preformatted":
		var out []State
		// whose pre-rendered bytes?
		owner := ""
		for _, a := range call.Args[1:] {
			if f := it.fieldOf(a); f == it.cfg.PreField {
				owner = exprString(a.(*ast.SelectorExpr).X)
			}
		}
		for _, s0 := range in {
			for _, st := range it.resolve(s0, base) {
				var sep *bool
				key := ""
				if it.cfg.SepField != nil {
					key = owner + "." + it.cfg.SepField.Name()
					if v, k := st.Env[key]; k {
						sep = &v
					}
				}
				gs, seps, err := it.cfg.Pre(st.G, sep)
				if err != nil {
					it.problem(call.Pos(), "%v", err)
					continue
				}
				for i, g := range gs {
					n := st.clone()
					n.G = g
					if key != "" {
						n.Env[key] = seps[i]
					}
					out = append(out, n)
				}
			}
		}
		return dedup(out)
	case cls.Class == "maybe-empty":
		// a string that may be empty: with the predicate `len(x) > 0` known true it is a token, otherwise it may also be nothing
		tok := it.cfg.TokenOf(cls.Class)
		var out []State
		arg := ""
		if len(call.Args) >= 2 {
			arg = exprString(call.Args[len(call.Args)-1])
		}
		for _, st := range in {
			if v, known := st.Env["pred:len("+arg+") > 0"]; known && v {
				out = append(out, it.emitToken(call.Pos(), []State{st}, base, tok)...)
				continue
			}
			out = append(out, it.emitToken(call.Pos(), []State{st}, base, tok)...)
			out = append(out, st)
		}
		return dedup(out)
	default:
		tok := it.cfg.TokenOf(cls.Class)
		if tok == "" {
			// reported by the sanitizer rule; continue as if it were harmless content so that one defect is one report
			return in
		}
		return it.emitToken(call.Pos(), in, base, tok)
	}
}

// attrsBoundMethod: `r.Attrs(w.write)` where w is a small struct built in this function from a composite literal
// (`w := attrWriter{buf: buf, addSep: h.addSep}`) and write is its method: the method body is the loop body, the
// receiver's fields stand for the expressions the literal gave them (a buffer pointer, boolean flags).
func (it *Interp) attrsBoundMethod(fc *fctx, call *ast.CallExpr, in []State) ([]State, bool) {
	sel, ok := ast.Unparen(call.Args[0]).(*ast.SelectorExpr)
	if !ok {
		return nil, false
	}
	s := it.cfg.Info.Selections[sel]
	if s == nil || s.Kind() != types.MethodVal {
		return nil, false
	}
	m, ok := s.Obj().(*types.Func)
	if !ok {
		return nil, false
	}
	decl := it.cfg.Decls[m]
	if decl == nil || decl.Body == nil || decl.Recv == nil || len(decl.Recv.List) != 1 || len(decl.Recv.List[0].Names) != 1 {
		return nil, false
	}
	recv := decl.Recv.List[0].Names[0].Name
	// the literal the receiver was built from
	var lit *ast.CompositeLit
	unwrap := func(e ast.Expr) *ast.CompositeLit {
		e = ast.Unparen(e)
		if u, ok := e.(*ast.UnaryExpr); ok && u.Op == token.AND {
			e = ast.Unparen(u.X)
		}
		cl, _ := e.(*ast.CompositeLit)
		return cl
	}
	if lit = unwrap(sel.X); lit == nil {
		id, ok := ast.Unparen(sel.X).(*ast.Ident)
		if !ok {
			return nil, false
		}
		obj := it.cfg.Info.Uses[id]
		var body ast.Node = fc.decl.Body
		if fc.lit != nil {
			body = fc.lit.Body
		}
		nAssign := 0
		ast.Inspect(body, func(n ast.Node) bool {
			as, ok := n.(*ast.AssignStmt)
			if !ok || len(as.Lhs) != len(as.Rhs) {
				return true
			}
			for i, l := range as.Lhs {
				if lid, ok := l.(*ast.Ident); ok && (it.cfg.Info.Defs[lid] == obj || it.cfg.Info.Uses[lid] == obj) && obj != nil {
					nAssign++
					lit = unwrap(as.Rhs[i])
				}
			}
			return true
		})
		if nAssign != 1 || lit == nil {
			return nil, false
		}
	}
	t := it.cfg.Info.TypeOf(lit)
	if t == nil {
		return nil, false
	}
	st, ok := t.Underlying().(*types.Struct)
	if !ok {
		return nil, false
	}
	type fv struct {
		name string
		val  ast.Expr
	}
	var fields []fv
	for i, el := range lit.Elts {
		if kv, ok := el.(*ast.KeyValueExpr); ok {
			if k, ok := kv.Key.(*ast.Ident); ok {
				fields = append(fields, fv{k.Name, kv.Value})
			}
		} else if i < st.NumFields() {
			fields = append(fields, fv{st.Field(i).Name(), el})
		}
	}
	sub := &fctx{decl: decl, obj: m, bufs: map[string]bool{}, retBool: true}
	haveBuf := false
	for _, f := range fields {
		if base, ok := it.bufPass(fc, f.val); ok && base == "" {
			sub.bufs[recv+"."+f.name] = true
			haveBuf = true
		}
	}
	if !haveBuf {
		return nil, false
	}
	var names []string
	for _, f := range decl.Type.Params.List {
		for _, n := range f.Names {
			names = append(names, n.Name)
		}
	}
	savedFn := it.curFn
	it.curFn = m.Name()
	defer func() { it.curFn = savedFn }()
	seen := map[string]bool{}
	var exits []State
	var work []State
	for _, s0 := range in {
		n := s0.clone()
		for _, f := range fields {
			if t := it.cfg.Info.TypeOf(f.val); t != nil {
				if b, ok := t.Underlying().(*types.Basic); ok && b.Kind() == types.Bool {
					key := recv + "." + f.name
					delete(n.Env, key)
					if v, known := it.evalBool(fc, f.val, s0); known {
						n.Env[key] = v
					}
				}
			}
		}
		work = append(work, n)
	}
	for iter := 0; len(work) > 0 && iter < 64; iter++ {
		var next []State
		for _, s0 := range work {
			st := s0.clone()
			for _, v := range names {
				invalidate(&st, v)
			}
			if seen[st.key()] {
				continue
			}
			seen[st.key()] = true
			exits = append(exits, st)
			r := it.block(sub, decl.Body.List, []State{st})
			for _, rs := range r.returns {
				if rs.Ret == 0 {
					exits = append(exits, rs.St)
				} else {
					next = append(next, rs.St)
				}
			}
			next = append(next, r.normal...)
		}
		work = dedup(next)
	}
	return dedup(exits), true
}

type callResult struct {
	St  State
	Ret int8
}

// callStmt: a call statement.
func (it *Interp) callStmt(fc *fctx, call *ast.CallExpr, in []State) []State {
	fn := it.calleeOf(call)
	// r.Attrs(func(a slog.Attr) bool { … })
	if fn != nil && fn.FullName() == "(log/slog.Record).Attrs" && len(call.Args) == 1 {
		if lit, ok := call.Args[0].(*ast.FuncLit); ok {
			sub := &fctx{decl: fc.decl, obj: fc.obj, bufs: fc.bufs, retBool: true, lit: lit}
			var names []string
			for _, f := range lit.Type.Params.List {
				for _, n := range f.Names {
					names = append(names, n.Name)
				}
			}
			// closure body as loop body: return true → continue, return false → break
			seen := map[string]bool{}
			var exits []State
			work := in
			for iter := 0; len(work) > 0 && iter < 64; iter++ {
				var next []State
				for _, s0 := range work {
					st := s0.clone()
					for _, v := range names {
						invalidate(&st, v)
					}
					if seen[st.key()] {
						continue
					}
					seen[st.key()] = true
					exits = append(exits, st)
					r := it.block(sub, lit.Body.List, []State{st})
					for _, rs := range r.returns {
						if rs.Ret == 0 {
							exits = append(exits, rs.St)
						} else {
							next = append(next, rs.St)
						}
					}
					next = append(next, r.normal...)
				}
				work = dedup(next)
			}
			return dedup(exits)
		}
	}
	if fn != nil && fn.FullName() == "(log/slog.Record).Attrs" && len(call.Args) == 1 {
		if out, ok := it.attrsBoundMethod(fc, call, in); ok {
			return out
		}
	}
	if fn != nil && fn.FullName() == "(log/slog.Record).Attrs" && len(call.Args) == 1 {
		// (a function literal was interpreted above) a callback given by name or as a bound method is not followed here:
		// what it writes per attribute would be skipped silently
		it.undecided(call.Pos(), "the callback given to Record.Attrs is not a function literal: what it emits per attribute is not interpreted")
		return in
	}
	if fn == nil {
		return in
	}
	if it.cfg.Ignore[fn] {
		return in
	}
	if _, isEm := it.cfg.BufParam[fn]; isEm {
		var out []State
		for _, r := range it.applyCall(fc, call, fn, in) {
			out = append(out, r.St)
		}
		return dedup(out)
	}
	for _, a := range call.Args {
		if _, ok := it.bufPass(fc, a); ok {
			it.undecided(call.Pos(), "line buffer passed to %s, which is not a known emitter", fn.FullName())
		}
	}
	return in
}

// applyCall applies the summary of an emitter (or the sanitizer token).
func (it *Interp) applyCall(fc *fctx, call *ast.CallExpr, fn *types.Func, in []State) []callResult {
	idx := it.cfg.BufParam[fn]
	args := call.Args
	if sel, ok := call.Fun.(*ast.SelectorExpr); ok {
		if s := it.cfg.Info.Selections[sel]; s != nil { // method call: receiver is parameter 0 in SSA numbering
			args = append([]ast.Expr{sel.X}, args...)
		}
	}
	if idx >= len(args) {
		return nil
	}
	base, ok := it.bufPass(fc, args[idx])
	if it.byValueEmitter(fn) {
		base, ok = it.bufDeref(fc, args[idx])
	}
	if !ok {
		// an emitter called on some other buffer (scratch): no effect on the line
		var out []callResult
		for _, st := range in {
			out = append(out, callResult{st, -1})
		}
		return out
	}
	if fn == it.cfg.Sanitizer {
		var out []callResult
		for _, st := range it.emitToken(call.Pos(), in, base, it.cfg.SanToken) {
			out = append(out, callResult{st, -1})
		}
		return out
	}
	decl := it.cfg.Decls[fn]
	if decl == nil {
		it.undecided(call.Pos(), "no body for emitter %s", fn.FullName())
		return nil
	}
	sig := fn.Type().(*types.Signature)
	var out []callResult
	for _, s0 := range in {
		for _, st := range it.resolve(s0, base) {
			// boolean arguments
			type pv struct {
				name string
				val  *bool
			}
			combos := [][]pv{{}}
			for i := 0; i < sig.Params().Len(); i++ {
				prm := sig.Params().At(i)
				b, isB := prm.Type().Underlying().(*types.Basic)
				if !isB || b.Kind() != types.Bool {
					continue
				}
				ai := i
				if sig.Recv() != nil {
					ai = i + 1
				}
				if ai >= len(args) {
					continue
				}
				if v, k := it.evalBool(fc, args[ai], st); k {
					vv := v
					for ci := range combos {
						combos[ci] = append(combos[ci], pv{prm.Name(), &vv})
					}
				} else {
					var nc [][]pv
					for _, c := range combos {
						for _, v := range []bool{true, false} {
							vv := v
							nc = append(nc, append(append([]pv{}, c...), pv{prm.Name(), &vv}))
						}
					}
					combos = nc
				}
			}
			// a method of the handler: what the caller knows about the receiver's separator flag holds in the callee
			recvKey, recvVal, recvKnown := "", false, false
			if sig.Recv() != nil && it.cfg.SepField != nil && len(args) > 0 && decl.Recv != nil && len(decl.Recv.List) == 1 && len(decl.Recv.List[0].Names) == 1 {
				if v, k := st.Env[exprString(args[0])+"."+it.cfg.SepField.Name()]; k {
					recvKey, recvVal, recvKnown = decl.Recv.List[0].Names[0].Name+"."+it.cfg.SepField.Name(), v, true
				}
			}
			for _, combo := range combos {
				env := map[string]bool{}
				var ks []string
				for _, c := range combo {
					env[c.name] = *c.val
					ks = append(ks, fmt.Sprintf("%s=%v", c.name, *c.val))
				}
				if recvKnown {
					env[recvKey] = recvVal
					ks = append(ks, fmt.Sprintf("%s=%v", recvKey, recvVal))
				}
				// a part of the handler's own method (`h.appendRest(buf, r)`): interpreted in place, with the caller's absolute
				// nesting depth — a summary is relative to its entry and cannot tell the brace that ends the line
				if it.isHandlerMethod(fn) && !it.inPlace[fn] {
					it.inPlace[fn] = true
					savedFn := it.curFn
					it.curFn = fn.Name()
					cfc := it.ctxFor(fn, decl)
					entry := st.clone()
					entry.Env = env
					fl := it.block(cfc, decl.Body.List, []State{entry})
					it.curFn = savedFn
					delete(it.inPlace, fn)
					back := func(r State, ret int8) {
						n := r.clone()
						n.Env = map[string]bool{}
						for k, v := range st.Env {
							n.Env[k] = v
						}
						n.Snap = st.Snap
						out = append(out, callResult{n, ret})
					}
					for _, r := range fl.returns {
						back(r.St, r.Ret)
					}
					for _, r := range fl.normal {
						back(r, -1)
					}
					continue
				}
				for _, o := range it.summary(fn, decl, st.G.S, env, strings.Join(ks, ",")) {
					n := st.clone()
					n.G.S = o.S
					n.G.C += o.DC
					n.G.K += o.DK
					n.G.Abs = n.G.Abs || o.Abs
					if o.NeedGroup {
						// refuted if the caller established that the value passed is not a group
						refuted := false
						for _, a := range args {
							t := it.cfg.Info.TypeOf(a)
							if t == nil || !(strings.HasSuffix(t.String(), "log/slog.Value") || strings.HasSuffix(t.String(), "log/slog.Attr")) {
								continue
							}
							as := strings.TrimPrefix(exprString(a), "&") // the value may be handed on by address
							for k, v := range st.Env {
								if strings.HasPrefix(k, "pred:"+as) && strings.Contains(k, "Kind() == ") && strings.HasSuffix(k, "KindGroup") && !v {
									refuted = true
								}
								if strings.HasPrefix(k, "pred:"+as) && strings.Contains(k, "Kind() != ") && strings.HasSuffix(k, "KindGroup") && v {
									refuted = true
								}
							}
						}
						if refuted {
							continue
						}
						it.problem(call.Pos(), "%s may leave its output position empty for a value of kind Group, and the caller does not exclude that kind", fn.Name())
						continue
					}
					out = append(out, callResult{n, o.Ret})
				}
			}
		}
	}
	return out
}

// isHandlerMethod: fn is a method of the handler type (the struct that holds the pre-rendered bytes).
func (it *Interp) isHandlerMethod(fn *types.Func) bool {
	sig := fn.Type().(*types.Signature)
	if sig.Recv() == nil || it.cfg.PreField == nil {
		return false
	}
	t := sig.Recv().Type()
	if p, ok := t.(*types.Pointer); ok {
		t = p.Elem()
	}
	st, ok := t.Underlying().(*types.Struct)
	if !ok {
		return false
	}
	for i := 0; i < st.NumFields(); i++ {
		if st.Field(i) == it.cfg.PreField {
			return true
		}
	}
	return false
}

// summary computes (least fixpoint) the outcomes of an emitter from grammar state s with the given boolean arguments.
func (it *Interp) summary(fn *types.Func, decl *ast.FuncDecl, s int, boolArgs map[string]bool, argKey string) []Outcome {
	key := fmt.Sprintf("%s|%s|%s", fn.FullName(), it.cfg.Gram.StateName(s), argKey)
	if it.done[key] {
		return it.memo[key]
	}
	if it.active[key] {
		it.usedActive[key] = true
		return it.memo[key]
	}
	it.active[key] = true
	savedEntry := it.curEntry
	it.curEntry = key
	defer func() { it.curEntry = savedEntry }()
	for round := 0; round < 32; round++ {
		it.usedActive[key] = false
		res := it.runFunc(fn, decl, State{G: G{S: s}, Env: boolArgs})
		same := outcomesEqual(res, it.memo[key])
		it.memo[key] = res
		if same || !it.usedActive[key] {
			break
		}
	}
	delete(it.active, key)
	if os.Getenv("GLB_EMIT_DEBUG") != "" {
		fmt.Fprintf(os.Stderr, "summary %s (called from %s) => %+v\n", key, savedEntry, it.memo[key])
	}
	it.done[key] = true
	it.Summaries[key] = it.memo[key]
	return it.memo[key]
}

func outcomesEqual(a, b []Outcome) bool {
	if len(a) != len(b) {
		return false
	}
	for i := range a {
		if a[i] != b[i] {
			return false
		}
	}
	return true
}

// runFunc interprets one emitter body from the given entry state.
func (it *Interp) runFunc(fn *types.Func, decl *ast.FuncDecl, entry State) []Outcome {
	saved := it.curFn
	it.curFn = fn.Name()
	defer func() { it.curFn = saved }()
	fc := it.ctxFor(fn, decl)
	st := entry.clone()
	fl := it.block(fc, decl.Body.List, []State{st})
	set := map[Outcome]bool{}
	add := func(s State, ret int8) {
		set[Outcome{S: s.G.S, DC: s.G.C, DK: s.G.K, Ret: ret, NeedGroup: s.NeedGroup, Abs: s.G.Abs}] = true
	}
	for _, r := range fl.returns {
		add(r.St, r.Ret)
	}
	for _, s := range fl.normal {
		if fc.retBool {
			it.undecided(decl.End(), "function with a result falls off its end")
		}
		add(s, -1)
	}
	var out []Outcome
	for o := range set {
		out = append(out, o)
	}
	sort.Slice(out, func(i, j int) bool {
		a, b := out[i], out[j]
		if a.S != b.S {
			return a.S < b.S
		}
		if a.DC != b.DC {
			return a.DC < b.DC
		}
		if a.DK != b.DK {
			return a.DK < b.DK
		}
		if a.Ret != b.Ret {
			return a.Ret < b.Ret
		}
		return !a.NeedGroup && b.NeedGroup
	})
	return out
}

func (it *Interp) ctxFor(fn *types.Func, decl *ast.FuncDecl) *fctx {
	fc := &fctx{decl: decl, obj: fn, bufs: map[string]bool{}}
	sig := fn.Type().(*types.Signature)
	if sig.Results().Len() == 1 {
		if b, ok := sig.Results().At(0).Type().Underlying().(*types.Basic); ok && b.Kind() == types.Bool {
			fc.retBool = true
		}
	}
	if idx, ok := it.cfg.BufParam[fn]; ok {
		i := idx
		if sig.Recv() != nil {
			i = idx - 1
		}
		if i >= 0 && i < sig.Params().Len() {
			prm := sig.Params().At(i)
			if _, byValue := prm.Type().Underlying().(*types.Slice); byValue {
				// the line received by value and returned extended (`func appendX(buf []byte, …) []byte`)
				fc.bufs["="+prm.Name()] = true
				fc.byValue = true
			} else {
				fc.bufs[prm.Name()] = true
			}
		}
	}
	return fc
}

// RunMethod interprets a handler method from the given entry states, with extra buffer identifiers
// (a local obtained from the pool, or "&h2" for the pre-rendered field of the handler being built).
func (it *Interp) RunMethod(fn *types.Func, decl *ast.FuncDecl, bufs []string, entry []State) []retState {
	saved := it.curFn
	it.curFn = fn.Name()
	defer func() { it.curFn = saved }()
	fc := it.ctxFor(fn, decl)
	for _, b := range bufs {
		fc.bufs[b] = true
	}
	fc.retBool = false
	fl := it.block(fc, decl.Body.List, entry)
	out := fl.returns
	for _, s := range fl.normal {
		out = append(out, retState{s, -1})
	}
	return out
}

// Exported view of retState for callers.
func (r retState) State() State { return r.St }

// SummaryOf computes the summary of an emitter from a given entry state (exported entry point).
func (it *Interp) SummaryOf(fn *types.Func, s int, boolArgs map[string]bool) []Outcome {
	decl := it.cfg.Decls[fn]
	if decl == nil {
		return nil
	}
	var ks []string
	for k, v := range boolArgs {
		ks = append(ks, fmt.Sprintf("%s=%v", k, v))
	}
	sort.Strings(ks)
	return it.summary(fn, decl, s, boolArgs, strings.Join(ks, ","))
}

// byValueEmitter: fn is an emitter that receives the line as a slice value (and returns the extended slice).
func (it *Interp) byValueEmitter(fn *types.Func) bool {
	idx, ok := it.cfg.BufParam[fn]
	if !ok {
		return false
	}
	sig := fn.Type().(*types.Signature)
	if sig.Recv() != nil {
		idx--
	}
	if idx < 0 || idx >= sig.Params().Len() {
		return false
	}
	_, isSlice := sig.Params().At(idx).Type().Underlying().(*types.Slice)
	return isSlice
}
