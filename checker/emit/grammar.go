// Package emit is an emission-typestate abstract interpreter: it walks the
// typed syntax of functions that append to an output buffer and tracks, over a
// finite abstract state, which state of the output grammar the bytes emitted
// so far have reached. Recursion over attribute trees is summarised by a
// least fixpoint, so every attribute tree and derivation chain is covered.
package emit

import "fmt"

// G is a grammar state: S is the automaton state; C + K·N is the nesting
// depth, N being the handler's symbolic number of open groups.
type G struct {
	S    int
	C, K int
	Abs  bool // depth is absolute (the line's opening brace was seen); in summaries depth is relative to the entry
}

// Token kinds for non-constant data (classified by the sanitizer rules).
const (
	TokStr   = "STR"   // escaped string content / closed alphabet legal inside a string
	TokNum   = "NUM"   // number or literal (strconv.AppendInt/Uint/Bool/Float)
	TokValue = "VALUE" // one complete value (encoder output)
	TokAtom  = "ATOM"  // text: one bare-or-quoted token produced by the quoting function
	TokBare  = "BARE"  // text: closed-alphabet run without separators (time, number, label)
	TokPre   = "PRE"   // the handler's pre-rendered bytes (class invariant)
)

// Grammar drives G over constant bytes and tokens.
type Grammar interface {
	Name() string
	StateName(s int) string
	Byte(g G, b byte) (G, error)
	Token(g G, tok string) (G, error)
}

// ---------------- JSON object members ----------------

const (
	JStart = iota
	JObjOpen
	JKeyStr
	JAfterKey
	JExpectVal
	JValStr
	JAfterMember
	JAfterComma
	JDone
	JEnd
)

type JSON struct{}

func (JSON) Name() string { return "json-members" }
func (JSON) StateName(s int) string {
	return [...]string{"Start", "ObjOpen", "InKeyString", "AfterKey", "ExpectValue", "InValueString", "AfterMember", "AfterComma", "Done", "End"}[s]
}

func jsonSafeInString(b byte) bool { return b >= 0x20 && b != '"' && b != '\\' }

func (j JSON) closeObj(g G) (G, error) {
	g.C--
	if g.Abs && g.C == 0 && g.K == 0 {
		g.S = JDone
		return g, nil
	}
	if g.Abs && g.C < 0 && g.K <= 0 {
		return g, fmt.Errorf("'}' closes more objects than were opened")
	}
	g.S = JAfterMember
	return g, nil
}

func (j JSON) Byte(g G, b byte) (G, error) {
	switch g.S {
	case JStart:
		if b == '{' {
			return G{S: JObjOpen, C: 1, K: 0, Abs: true}, nil
		}
	case JObjOpen:
		switch b {
		case '"':
			g.S = JKeyStr
			return g, nil
		case '}':
			return j.closeObj(g)
		}
	case JAfterComma:
		if b == '"' {
			g.S = JKeyStr
			return g, nil
		}
	case JKeyStr:
		if b == '"' {
			g.S = JAfterKey
			return g, nil
		}
		if jsonSafeInString(b) {
			return g, nil
		}
	case JAfterKey:
		if b == ':' {
			g.S = JExpectVal
			return g, nil
		}
	case JExpectVal:
		switch b {
		case '"':
			g.S = JValStr
			return g, nil
		case '{':
			g.S = JObjOpen
			g.C++
			return g, nil
		}
	case JValStr:
		if b == '"' {
			g.S = JAfterMember
			return g, nil
		}
		if jsonSafeInString(b) {
			return g, nil
		}
	case JAfterMember:
		switch b {
		case ',':
			g.S = JAfterComma
			return g, nil
		case '}':
			return j.closeObj(g)
		}
	case JDone:
		if b == '\n' {
			g.S = JEnd
			return g, nil
		}
	}
	return g, fmt.Errorf("byte %q emitted in state %s", b, j.StateName(g.S))
}

func (j JSON) Token(g G, tok string) (G, error) {
	switch tok {
	case TokStr:
		if g.S == JKeyStr || g.S == JValStr {
			return g, nil
		}
	case TokNum, TokValue:
		if g.S == JExpectVal {
			g.S = JAfterMember
			return g, nil
		}
	}
	return g, fmt.Errorf("%s emitted in state %s", tok, j.StateName(g.S))
}

// ---------------- text key=value items ----------------

const (
	TLineStart = iota
	TInKey
	TAfterKey
	TExpectVal
	TInVal
	TAfterItem
	TAfterSpace
	TEnd
)

type Text struct{}

func (Text) Name() string { return "text-items" }
func (Text) StateName(s int) string {
	return [...]string{"LineStart", "InBareKey", "AfterKey", "ExpectValue", "InBareValue", "AfterItem", "AfterSpace", "End"}[s]
}

func textBare(b byte) bool { return b > 0x20 && b != '=' && b != '"' && b != 0x7f }

func (t Text) Byte(g G, b byte) (G, error) {
	switch g.S {
	case TLineStart, TAfterSpace:
		if textBare(b) {
			g.S = TInKey
			return g, nil
		}
	case TInKey:
		if b == '=' {
			g.S = TExpectVal
			return g, nil
		}
		if textBare(b) {
			return g, nil
		}
	case TAfterKey:
		if b == '=' {
			g.S = TExpectVal
			return g, nil
		}
	case TExpectVal:
		if textBare(b) {
			g.S = TInVal
			return g, nil
		}
	case TInVal, TAfterItem:
		switch {
		case b == ' ':
			g.S = TAfterSpace
			return g, nil
		case b == '\n':
			g.S = TEnd
			return g, nil
		case g.S == TInVal && textBare(b):
			return g, nil
		}
	}
	return g, fmt.Errorf("byte %q emitted in state %s", b, t.StateName(g.S))
}

func (t Text) Token(g G, tok string) (G, error) {
	switch tok {
	case TokAtom:
		switch g.S {
		case TLineStart, TAfterSpace:
			g.S = TAfterKey
			return g, nil
		case TExpectVal:
			g.S = TAfterItem
			return g, nil
		}
	case TokBare, TokNum:
		if g.S == TExpectVal {
			g.S = TAfterItem
			return g, nil
		}
	}
	return g, fmt.Errorf("%s emitted in state %s", tok, t.StateName(g.S))
}

// ---------------- dotted group path (the key-prefix scratch buffer of the text handler) ----------------

const (
	PBase = iota // as handed in: the open groups' prefix, possibly empty
	PDot         // ends with a '.' separator
	PSeg         // ends with a non-empty segment appended here
)

const TokKey = "KEY" // a non-empty key segment

type Path struct{}

func (Path) Name() string { return "dotted-path" }
func (Path) StateName(s int) string {
	return [...]string{"AsHandedIn", "AfterDot", "AfterSegment"}[s]
}

func (pt Path) Byte(g G, b byte) (G, error) {
	if b != '.' {
		return g, fmt.Errorf("constant byte %q appended to the key prefix (only '.' separators are expected)", b)
	}
	if g.S == PDot {
		return g, fmt.Errorf("'.' appended to a key prefix that already ends with '.': an empty path segment (\"a..b\")")
	}
	g.S = PDot
	return g, nil
}

func (pt Path) Token(g G, tok string) (G, error) {
	if tok == TokKey {
		g.S = PSeg
		return g, nil
	}
	return g, fmt.Errorf("%s appended to the key prefix", tok)
}
